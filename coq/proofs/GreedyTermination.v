(* C09: the greedy hill climb terminates.  Scores in a total order and taking finitely many
   values (there is one score per pair of geo sets): the matching phase strictly increases the
   score of the current design, the augmentation phase increases k up to the maximum treatment
   size.  A potential function bounds the number of iterations, so a fuel above the initial
   potential always yields a result. *)
From Coq Require Import List Arith ZArith Bool Lia Orders OrdersFacts.
From MM Require Import lib.ListSet lib.Values model.Heap model.Elig model.SearchParams model.SearchDefs model.Search
  proofs.HeapProofs.
Import ListNotations.
Open Scope Z_scope.

Module GreedyTerm (K : UsualOrderedTypeFull').
  Module HP := HeapProofs K.
  Module Import KF := OrderedTypeFullFacts K.
  Notation ltk := HP.kltb.

  Definition aboveL (l : list K.t) (k : K.t) : nat := length (filter (fun x => ltk k x) l).
  Lemma aboveL_le l k : (aboveL l k <= length l)%nat.
  Proof. unfold aboveL. induction l as [|x l IH]; cbn; [lia|]. destruct (ltk k x); cbn; lia. Qed.
  Lemma ltk_true a b : ltk a b = true <-> K.lt a b.
  Proof. destruct (HP.kltb_spec a b); split; intro; try reflexivity; try assumption; try discriminate; order. Qed.
  Lemma aboveL_mono l a b : K.lt a b -> (aboveL l b <= aboveL l a)%nat.
  Proof.
    intro Hab. unfold aboveL. induction l as [|y l IHl]; cbn; [lia|].
    destruct (ltk b y) eqn:E.
    - apply ltk_true in E. assert (E' : ltk a y = true) by (apply ltk_true; order). rewrite E'. cbn. lia.
    - destruct (ltk a y); cbn; lia.
  Qed.
  Lemma aboveL_decreases l a b : ltk a b = true -> In b l -> (aboveL l b < aboveL l a)%nat.
  Proof.
    intros Hab Hb. apply ltk_true in Hab. induction l as [|x l IH]; [destruct Hb|].
    unfold aboveL in *. cbn [filter]. destruct Hb as [->|Hb].
    - assert (E1 : ltk b b = false) by (apply not_true_is_false; intro H; apply ltk_true in H; order).
      assert (E2 : ltk a b = true) by (apply ltk_true; exact Hab). rewrite E1, E2. cbn [length].
      pose proof (aboveL_mono l a b Hab) as G. unfold aboveL in G. lia.
    - specialize (IH Hb). destruct (ltk b x) eqn:E.
      + apply ltk_true in E. assert (E' : ltk a x = true) by (apply ltk_true; order). rewrite E'. cbn. lia.
      + destruct (ltk a x); cbn; lia.
  Qed.

  Section S.
    Context {V : Type} (O : vops V).
    Variables (A : assignments) (par : spar V).
    Variables (shareS : set -> V) (bud : set -> set -> V) (gkey : set -> set -> K.t) (zero_key : K.t).
    (* the score oracle takes finitely many values *)
    Variable L : list K.t.
    Hypothesis keys_in_L : forall T C, In (gkey T C) L.

    Notation gstep := (gstep O ltk A par shareS bud gkey zero_key).
    Notation gloop := (gloop O ltk A par shareS bud gkey zero_key).
    Notation gcontinue := (gcontinue A par).
    Notation match_scan := (match_scan O ltk A par shareS bud gkey).

    Definition above (k : K.t) : nat := aboveL L k.
    Lemma above_le k : (above k <= length L)%nat.
    Proof. apply aboveL_le. Qed.
    Lemma above_decreases a b : ltk a b = true -> In b L -> (above b < above a)%nat.
    Proof. apply aboveL_decreases. Qed.

    (* the scan returns a control group together with its own score *)
    Lemma match_scan_key k T ctl : snd (match_scan k T ctl) = gkey T (fst (match_scan k T ctl)).
    Proof.
      unfold Search.match_scan. generalize (ascending (union (diff (a_c A) (union ctl T)) (diff (inter ctl (a_x A)) T))).
      intro l. set (f := fun (acc : set * K.t) g => _).
      assert (G : forall l acc, snd acc = gkey T (fst acc) -> snd (fold_left f l acc) = gkey T (fst (fold_left f l acc))).
      { clear l. induction l as [|g l IH]; intros acc H; cbn [fold_left]; [exact H|]. apply IH. unfold f. cbv zeta.
        destruct (candidate_ok _ _ _ _ _ _ _ _); [|exact H]. destruct (ltk _ _); [reflexivity|exact H]. }
      apply G. reflexivity.
    Qed.

    Definition current_key (s : gstate) : K.t := gkey (lookup (gs_star_trt s) (gs_k s)) (gs_ctl s).
    Definition potential (s : gstate) : nat :=
      (Z.to_nat (max_tsize A par - gs_k s) * (length L + 2) +
       (if gs_needs_matching s then above (current_key s) + 1 else 0))%nat.

    Lemma lookup_store_same d k s : lookup (store d k s) k = s.
    Proof. induction d as [|[k' s'] d IH]; cbn; [rewrite Z.eqb_refl; reflexivity|].
      destruct (k' =? k) eqn:E; cbn; rewrite E; [reflexivity|exact IH]. Qed.

    Lemma potential_decreases s : gcontinue s = true -> (potential (gstep s) < potential s)%nat.
    Proof.
      intro Hc. unfold potential, Search.gstep. cbv zeta.
      destruct (gs_needs_matching s) eqn:Em.
      - pose proof (match_scan_key (gs_k s) (lookup (gs_star_trt s) (gs_k s)) (gs_ctl s)) as Hk.
        destruct (match_scan (gs_k s) (lookup (gs_star_trt s) (gs_k s)) (gs_ctl s)) as [best bk]. cbn [fst snd] in Hk.
        destruct (ltk (gkey (lookup (gs_star_trt s) (gs_k s)) (gs_ctl s)) bk) eqn:El;
          cbn [gs_k gs_needs_matching gs_ctl gs_star_trt gs_star_ctl].
        + unfold current_key. cbn [gs_k gs_ctl gs_star_trt]. rewrite <- Hk.
          pose proof (above_decreases _ _ El (eq_ind_r (fun x => In x L) (keys_in_L _ _) Hk)). lia.
        + lia.
      - unfold Search.gcontinue in Hc. rewrite Em, orb_false_r in Hc. apply Z.ltb_lt in Hc.
        destruct (augment_scan O ltk A par shareS bud gkey zero_key (gs_k s) (lookup (gs_star_trt s) (gs_k s))
                    (lookup (gs_star_ctl s) (gs_k s))) as [[[aug upd] bk] accepted].
        cbn [gs_k gs_needs_matching gs_ctl gs_star_trt gs_star_ctl].
        pose proof (above_le (current_key {| gs_k := gs_k s + 1; gs_needs_matching := true;
                                             gs_ctl := if accepted then upd else gs_ctl s;
                                             gs_star_trt := store (gs_star_trt s) (gs_k s + 1) aug;
                                             gs_star_ctl := gs_star_ctl s |})) as Hle.
        replace (Z.to_nat (max_tsize A par - gs_k s)) with (S (Z.to_nat (max_tsize A par - (gs_k s + 1)))) by lia.
        cbn [Nat.mul]. lia.
    Qed.

    Theorem greedy_loop_terminates fuel : forall s, (potential s < fuel)%nat -> exists s', gloop fuel s = Some s'.
    Proof.
      induction fuel as [|f IH]; intros s H; [lia|]. cbn [Search.gloop].
      destruct (gcontinue s) eqn:Ec; [|eexists; reflexivity].
      apply IH. pose proof (potential_decreases s Ec). lia.
    Qed.
    Corollary greedy_terminates :
      exists ds, greedy O ltk A par shareS bud gkey zero_key (S (potential (ginit A))) = Some ds.
    Proof.
      unfold greedy. destruct (greedy_loop_terminates (S (potential (ginit A))) (ginit A)) as [s' E]; [lia|].
      rewrite E. eexists. reflexivity.
    Qed.
    (* more fuel never changes the answer *)
    Lemma gloop_more_fuel f1 : forall s s' f2, (f1 <= f2)%nat -> gloop f1 s = Some s' -> gloop f2 s = Some s'.
    Proof.
      induction f1 as [|f1 IH]; intros s s' f2 Hle H; cbn [Search.gloop] in H.
      - destruct (gcontinue s) eqn:Ec; [discriminate|]. destruct f2; cbn [Search.gloop]; rewrite Ec; exact H.
      - destruct f2 as [|f2]; [lia|]. cbn [Search.gloop]. destruct (gcontinue s); [|exact H]. apply IH; [lia|exact H].
    Qed.
    Theorem greedy_result_independent_of_fuel f1 f2 ds :
      (f1 <= f2)%nat -> greedy O ltk A par shareS bud gkey zero_key f1 = Some ds ->
      greedy O ltk A par shareS bud gkey zero_key f2 = Some ds.
    Proof.
      unfold greedy. intros Hle H. destruct (gloop f1 (ginit A)) as [s|] eqn:E; [|discriminate].
      rewrite (gloop_more_fuel f1 _ _ f2 Hle E). exact H.
    Qed.
  End S.
End GreedyTerm.
