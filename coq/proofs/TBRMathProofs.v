(* Algebra of the TBR analysis and design sides over Q (C05, C06, C07, C18). *)
From Coq Require Import List ZArith QArith Qfield Lia Lqa Qabs Sorting.Permutation Setoid.
From MM Require Import model.TBRMath.
Import ListNotations.
Open Scope Q_scope.

Lemma nQ_cons {A} (a : A) l : nQ (a :: l) == nQ l + 1.
Proof.
  unfold nQ. cbn [length]. rewrite Nat2Z.inj_succ. unfold Z.succ. rewrite inject_Z_plus. reflexivity.
Qed.

Lemma qsum_cons x l : qsum (x :: l) == x + qsum l.
Proof. unfold qsum. cbn [fold_right]. apply Qred_correct. Qed.
Lemma qsum_nil : qsum [] = 0.
Proof. reflexivity. Qed.

Lemma qsum_app a b : qsum (a ++ b) == qsum a + qsum b.
Proof. induction a as [|x a IH]; cbn [app]; [rewrite qsum_nil; ring|]. rewrite !qsum_cons, IH. ring. Qed.

(* ---- sums ---- *)
Lemma sum_resid a b (d : list pt) : qsum (map (resid a b) d) == Sy d - nQ d * a - b * Sx d.
Proof.
  unfold Sy, Sx. induction d as [|[x y] d IH].
  - unfold nQ. cbn [map length Z.of_nat]. rewrite !qsum_nil. change (inject_Z 0) with 0. ring.
  - rewrite nQ_cons. cbn [map]. rewrite !qsum_cons, IH. unfold resid. cbn [fst snd]. ring.
Qed.
Lemma rss_expand a b (d : list pt) :
  rss a b d == Syy_raw d + nQ d * a * a + b * b * Sxx_raw d - 2 * a * Sy d - 2 * b * Sxy_raw d + 2 * a * b * Sx d.
Proof.
  unfold rss, Syy_raw, Sxx_raw, Sxy_raw, Sy, Sx. induction d as [|[x y] d IH].
  - unfold nQ. cbn [map length Z.of_nat]. rewrite !qsum_nil. change (inject_Z 0) with 0. ring.
  - rewrite nQ_cons. cbn [map]. rewrite !qsum_cons, IH. unfold resid. cbn [fst snd]. ring.
Qed.

Lemma det_is d : ~ nQ d == 0 -> det d == nQ d * Sxx d.
Proof. intro Hn. unfold det, Sxx. field. exact Hn. Qed.
Lemma det_ne d : ~ nQ d == 0 -> ~ Sxx d == 0 -> ~ det d == 0.
Proof.
  intros Hn Hx H. rewrite (det_is d Hn) in H. apply Qmult_integral in H. tauto.
Qed.

(* residuals of the OLS fit sum to zero (C18) *)
Theorem ols_resid_sum_zero d : ~ nQ d == 0 -> qsum (map (resid (icept d) (slope d)) d) == 0.
Proof. intro Hn. rewrite sum_resid. unfold icept, ybar, xbar. field. exact Hn. Qed.

(* residual sum of squares in closed form; the identity behind sigma = std(y, ddof=2) sqrt(1 - corr^2) *)
Theorem rss_closed_form d : ~ nQ d == 0 -> ~ Sxx d == 0 ->
  rss (icept d) (slope d) d == Syy d - Sxy d * Sxy d / Sxx d.
Proof.
  intros Hn Hx. rewrite rss_expand. unfold icept, slope, ybar, xbar.
  pose proof (det_ne d Hn Hx) as Hd. unfold det in Hd.
  unfold Sxx, Syy, Sxy in *. field. split; [exact Hn|].
  intro H. apply Hd. rewrite <- H. ring.
Qed.
Theorem sigma_identity d : ~ nQ d == 0 -> ~ Sxx d == 0 -> ~ Syy d == 0 -> ~ nQ d - 2 == 0 ->
  sigma2_of_corr d (corr2 d) == s2 d.
Proof.
  intros Hn Hx Hy H2. unfold sigma2_of_corr, s2, corr2. rewrite rss_closed_form by assumption. field. tauto.
Qed.

(* quadratic form of the OLS covariance with (1, u): Kerman (2017) eq. 5 *)
Theorem quad_form d u : ~ nQ d == 0 -> ~ Sxx d == 0 ->
  v00 d + 2 * u * v01 d + u * u * v11 d == s2 d * (1 / nQ d + (u - xbar d) * (u - xbar d) / Sxx d).
Proof.
  intros Hn Hx. unfold v00, v01, v11, xbar.
  assert (Hd : det d == nQ d * Sxx d) by (apply det_is; exact Hn).
  assert (Hraw : Sxx_raw d == Sxx d + Sx d * Sx d / nQ d) by (unfold Sxx; field; exact Hn).
  rewrite Hd, Hraw. field. tauto.
Qed.
Theorem var_closed_form d t ubar : ~ nQ d == 0 -> ~ Sxx d == 0 ->
  var_at d t ubar == s2 d * (t * t * (1 / nQ d + (ubar - xbar d) * (ubar - xbar d) / Sxx d) + t).
Proof. intros Hn Hx. unfold var_at. rewrite (quad_form d ubar Hn Hx). ring. Qed.

(* the design-side fit has the same scale and the same point estimate as the analysis side *)
Theorem design_side_scale_agrees d T xt : ~ nQ d == 0 -> ~ Sxx d == 0 -> ~ T == 0 ->
  fit_scale2 d T xt == var_at d T xt.
Proof.
  intros Hn Hx HT. rewrite var_closed_form by assumption. unfold fit_scale2. field. tauto.
Qed.
Lemma effects_sum d test : ~ nQ d == 0 ->
  qsum (effects d test) == Sy test - nQ test * icept d - slope d * Sx test.
Proof. intros _. unfold effects. apply sum_resid. Qed.
Theorem design_side_estimate_agrees d test : ~ nQ d == 0 -> ~ nQ test == 0 ->
  fit_estimate d (nQ test) (Sx test / nQ test) (Sy test / nQ test) == qsum (effects d test).
Proof.
  intros Hn HT. rewrite effects_sum by exact Hn. unfold fit_estimate, icept. field. exact HT.
Qed.

(* C05: required impact is calibrated to the posterior scale at the stated displacement *)
Theorem required_impact_calibrated d T phi tqs tqp ubar :
  ~ nQ d == 0 -> ~ Sxx d == 0 -> ~ Syy d == 0 -> ~ T == 0 -> ~ nQ d - 1 == 0 -> ~ nQ d - 2 == 0 ->
  (ubar - xbar d) * (ubar - xbar d) == phi * (nQ d + 1) * Sxx d / (nQ d * T * (nQ d - 1)) ->
  impact2 d T phi tqs tqp (corr2 d) == (tqs + tqp) * (tqs + tqp) * var_at d T ubar.
Proof.
  intros Hn Hx Hy HT Hn1 Hn2 Hdx. unfold impact2. rewrite sigma_identity by assumption.
  rewrite var_closed_form by assumption. rewrite Hdx. unfold term2. field. tauto.
Qed.
(* when the test period shows exactly that lift, the estimate is the lift ... *)
Theorem lift_recovered d (test : list pt) lift_per_day :
  (forall p, In p test -> snd p == icept d + slope d * fst p + lift_per_day) ->
  qsum (effects d test) == nQ test * lift_per_day.
Proof.
  unfold effects. induction test as [|[x y] test IH]; intro H.
  - unfold nQ. cbn [map length Z.of_nat]. rewrite !qsum_nil. change (inject_Z 0) with 0. ring.
  - rewrite nQ_cons. cbn [map]. rewrite !qsum_cons.
    rewrite IH by (intros p Hp; apply H; right; exact Hp).
    unfold resid. cbn [fst snd]. rewrite (H (x, y) (or_introl eq_refl)). cbn [fst snd]. ring.
Qed.
(* ... and the one-sided lower bound at confidence sig_level is the power_level quantile times the scale *)
Theorem lower_bound_at_power tqs tqp scale : (tqs + tqp) * scale - tqs * scale == tqp * scale.
Proof. ring. Qed.

(* scale equivariance, shift invariance, monotonicity in |corr| *)
Theorem impact2_decreasing_in_corr2 d T phi tqs tqp r1 r2 :
  0 < term2 (nQ d) T phi tqs tqp * (Syy d / (nQ d - 2)) -> r1 < r2 ->
  impact2 d T phi tqs tqp r2 < impact2 d T phi tqs tqp r1.
Proof.
  intros HK Hr. unfold impact2, sigma2_of_corr. set (K := term2 _ _ _ _ _) in *. set (S := Syy d / (nQ d - 2)) in *. nra.
Qed.

Definition scale_pt (c : Q) (p : pt) : pt := (c * fst p, c * snd p).
Definition shift_pt (kx ky : Q) (p : pt) : pt := (fst p + kx, snd p + ky).
Lemma qsum_map_scale {A} (f : A -> Q) c l : qsum (map (fun a => c * f a) l) == c * qsum (map f l).
Proof. induction l as [|a l IH]; cbn [map]; [rewrite !qsum_nil; ring|]. rewrite !qsum_cons, IH. ring. Qed.
Lemma qsum_ext {A} (f g : A -> Q) l : (forall a, f a == g a) -> qsum (map f l) == qsum (map g l).
Proof. intro H. induction l as [|a l IH]; cbn [map]; [reflexivity|]. rewrite !qsum_cons, IH, H. reflexivity. Qed.
Lemma nQ_map {A B} (f : A -> B) l : nQ (map f l) = nQ l.
Proof. unfold nQ. rewrite map_length. reflexivity. Qed.
Lemma S_scale c d :
  Sx (map (scale_pt c) d) == c * Sx d /\ Sy (map (scale_pt c) d) == c * Sy d /\
  Sxx_raw (map (scale_pt c) d) == c * c * Sxx_raw d /\ Syy_raw (map (scale_pt c) d) == c * c * Syy_raw d /\
  Sxy_raw (map (scale_pt c) d) == c * c * Sxy_raw d.
Proof.
  unfold Sx, Sy, Sxx_raw, Syy_raw, Sxy_raw. rewrite !map_map. cbn [scale_pt fst snd]. repeat split.
  - apply qsum_map_scale.
  - apply qsum_map_scale.
  - rewrite <- qsum_map_scale. apply qsum_ext. intro a. ring.
  - rewrite <- qsum_map_scale. apply qsum_ext. intro a. ring.
  - rewrite <- qsum_map_scale. apply qsum_ext. intro a. ring.
Qed.
Theorem centred_sums_scale c d : ~ nQ d == 0 ->
  Sxx (map (scale_pt c) d) == c * c * Sxx d /\ Syy (map (scale_pt c) d) == c * c * Syy d /\
  Sxy (map (scale_pt c) d) == c * c * Sxy d.
Proof.
  intro Hn. destruct (S_scale c d) as [H1 [H2 [H3 [H4 H5]]]]. unfold Sxx, Syy, Sxy. rewrite nQ_map, H1, H2, H3, H4, H5.
  repeat split; field; exact Hn.
Qed.
(* required impact scales linearly with the response unit (squared form: by c^2) *)
Theorem impact2_scale_equivariant c d T phi tqs tqp rho2 : ~ nQ d == 0 -> ~ nQ d - 2 == 0 ->
  impact2 (map (scale_pt c) d) T phi tqs tqp rho2 == c * c * impact2 d T phi tqs tqp rho2.
Proof.
  intros Hn H2. unfold impact2, sigma2_of_corr. destruct (centred_sums_scale c d Hn) as [_ [H _]].
  rewrite nQ_map, H. field. exact H2.
Qed.
(* the correlation is scale free, hence so is the whole comparison of a design to min_corr *)
Theorem corr2_scale_invariant c d : ~ nQ d == 0 -> ~ c == 0 -> ~ Sxx d == 0 -> ~ Syy d == 0 ->
  corr2 (map (scale_pt c) d) == corr2 d.
Proof.
  intros Hn Hc Hx Hy. unfold corr2. destruct (centred_sums_scale c d Hn) as [H1 [H2 H3]]. rewrite H1, H2, H3. field. tauto.
Qed.

(* level shifts: centred sums, hence correlation and required impact, ignore them *)
Lemma S_shift kx ky d :
  Sx (map (shift_pt kx ky) d) == Sx d + nQ d * kx /\ Sy (map (shift_pt kx ky) d) == Sy d + nQ d * ky /\
  Sxx_raw (map (shift_pt kx ky) d) == Sxx_raw d + 2 * kx * Sx d + nQ d * kx * kx /\
  Syy_raw (map (shift_pt kx ky) d) == Syy_raw d + 2 * ky * Sy d + nQ d * ky * ky /\
  Sxy_raw (map (shift_pt kx ky) d) == Sxy_raw d + kx * Sy d + ky * Sx d + nQ d * kx * ky.
Proof.
  unfold Sx, Sy, Sxx_raw, Syy_raw, Sxy_raw. induction d as [|[x y] d IH].
  - unfold nQ. cbn [map length Z.of_nat]. rewrite !qsum_nil. change (inject_Z 0) with 0. repeat split; ring.
  - destruct IH as [I1 [I2 [I3 [I4 I5]]]]. rewrite nQ_cons. cbn [map]. rewrite !qsum_cons, I1, I2, I3, I4, I5.
    cbn [shift_pt fst snd]. repeat split; ring.
Qed.
Theorem centred_sums_shift kx ky d : ~ nQ d == 0 ->
  Sxx (map (shift_pt kx ky) d) == Sxx d /\ Syy (map (shift_pt kx ky) d) == Syy d /\ Sxy (map (shift_pt kx ky) d) == Sxy d.
Proof.
  intro Hn. destruct (S_shift kx ky d) as [H1 [H2 [H3 [H4 H5]]]]. unfold Sxx, Syy, Sxy. rewrite nQ_map, H1, H2, H3, H4, H5.
  repeat split; field; exact Hn.
Qed.
Theorem impact2_shift_invariant kx ky d T phi tqs tqp rho2 : ~ nQ d == 0 ->
  impact2 (map (shift_pt kx ky) d) T phi tqs tqp rho2 == impact2 d T phi tqs tqp rho2.
Proof.
  intro Hn. unfold impact2, sigma2_of_corr. destruct (centred_sums_shift kx ky d Hn) as [_ [H _]]. rewrite nQ_map, H. reflexivity.
Qed.

(* ---- C06: group totals do not depend on row order, nor on rows of other groups ---- *)
Record trow := { t_group : Z; t_date : Z; t_val : Q }.
Definition total (rows : list trow) (g d : Z) : Q :=
  qsum (map t_val (filter (fun r => (t_group r =? g)%Z && (t_date r =? d)%Z) rows)).
Lemma qsum_perm a b : Permutation a b -> qsum a == qsum b.
Proof.
  induction 1 as [|x a' b' H IH|x y l|a' b' c' H1 IH1 H2 IH2].
  - reflexivity.
  - rewrite !qsum_cons, IH. reflexivity.
  - rewrite !qsum_cons. ring.
  - rewrite IH1. exact IH2.
Qed.
Lemma filter_perm {A} (p : A -> bool) a b : Permutation a b -> Permutation (filter p a) (filter p b).
Proof.
  induction 1 as [|x a' b' H IH|x y l|a' b' c' H1 IH1 H2 IH2]; cbn.
  - constructor.
  - destruct (p x); [constructor|]; assumption.
  - destruct (p x), (p y); try reflexivity. apply perm_swap.
  - etransitivity; eassumption.
Qed.
Theorem totals_row_order_irrelevant a b g d : Permutation a b -> total a g d == total b g d.
Proof. intro P. unfold total. apply qsum_perm. apply Permutation_map. apply filter_perm. exact P. Qed.
Theorem totals_ignore_other_groups rows extra g d : (forall r, In r extra -> t_group r <> g) ->
  total (rows ++ extra) g d == total rows g d.
Proof.
  intro H. unfold total. rewrite filter_app, map_app.
  assert (E : filter (fun r => (t_group r =? g)%Z && (t_date r =? d)%Z) extra = []).
  { induction extra as [|r l IH]; [reflexivity|]. cbn. destruct (Z.eqb_spec (t_group r) g) as [E|_].
    - exfalso. apply (H r); [left; reflexivity|exact E].
    - cbn. apply IH. intros r' Hr'. apply H. right. exact Hr'. }
  rewrite E. cbn [map]. rewrite qsum_app, qsum_nil. ring.
Qed.
Theorem totals_split_over_geos rows1 rows2 g d : total (rows1 ++ rows2) g d == total rows1 g d + total rows2 g d.
Proof.
  unfold total. rewrite filter_app, map_app. induction (map t_val (filter _ rows1)) as [|x l IH]; cbn [app].
  - rewrite qsum_nil. ring.
  - rewrite !qsum_cons, IH. ring.
Qed.

(* ---- C06 / C07 / C18: location-scale algebra of the summaries ---- *)
(* a quantile of the posterior is loc + scale * tq, with tq the standard quantile *)
Definition quantile (loc scale tq : Q) : Q := loc + scale * tq.
Theorem summary_order loc scale tq_lo tq_hi : 0 <= scale -> tq_lo <= 0 -> 0 <= tq_hi ->
  quantile loc scale tq_lo <= loc /\ loc <= quantile loc scale tq_hi.
Proof.
  intros Hs Hl Hh. unfold quantile. split; nra.
Qed.
Theorem precision_is_estimate_minus_lower loc scale tq_lo : 0 <= scale -> tq_lo <= 0 ->
  Qabs.Qabs (quantile loc scale tq_lo - quantile loc scale 0) == loc - quantile loc scale tq_lo.
Proof.
  intros Hs Hl. unfold quantile. setoid_replace (loc + scale * tq_lo - (loc + scale * 0)) with (scale * tq_lo) by ring.
  setoid_replace (loc - (loc + scale * tq_lo)) with (- (scale * tq_lo)) by ring.
  apply Qabs.Qabs_neg. nra.
Qed.
(* the one-tailed lower bound lies ABOVE the estimate when level < 1/2 (tq_lo > 0): finding F6 *)
Theorem summary_order_fails_below_half loc scale tq_lo : 0 < scale -> 0 < tq_lo -> loc < quantile loc scale tq_lo.
Proof.
  intros Hs Hl. unfold quantile. nra.
Qed.

(* C07, fixed cost: iROAS figures are the response figures divided by the incremental cost *)
Theorem iroas_is_response_over_cost loc scale tq cost : ~ cost == 0 ->
  quantile (loc * (1 / cost)) (scale * (1 / cost)) tq == quantile loc scale tq / cost.
Proof. intro H. unfold quantile. field. exact H. Qed.
Theorem incremental_bounds_are_iroas_bounds_times_cost loc scale tq cost : ~ cost == 0 ->
  quantile (loc * (1 / cost)) (scale * (1 / cost)) tq * cost == quantile loc scale tq.
Proof. intro H. unfold quantile. field. exact H. Qed.
Theorem iroas_unit_change loc scale tq cost a b : ~ cost == 0 -> ~ a == 0 ->
  quantile ((b * loc) * (1 / (a * cost))) ((b * scale) * (1 / (a * cost))) tq
  == (b / a) * quantile (loc * (1 / cost)) (scale * (1 / cost)) tq.
Proof. intros H1 H2. unfold quantile. field. tauto. Qed.
(* a negative incremental cost makes the scale handed to the t distribution negative: finding F7 *)
Theorem negative_cost_gives_negative_scale scale cost : 0 < scale -> cost < 0 -> scale * (1 / cost) < 0.
Proof.
  intros Hs Hc. assert (E : (1 / cost) * cost == 1) by (field; intro H; rewrite H in Hc; discriminate Hc).
  set (w := 1 / cost) in *. nra.
Qed.

(* C18: pointwise bounds are first differences of cumulative quantiles; they bracket the pointwise
   estimate exactly when the cumulative scale does not decrease (for a lower quantile tq < 0) *)
Theorem pointwise_lower_le_estimate_iff loc0 loc1 s0 s1 tq : tq < 0 ->
  (quantile loc1 s1 tq - quantile loc0 s0 tq <= loc1 - loc0 <-> s0 <= s1).
Proof.
  intro Ht. unfold quantile. split; intro H; nra.
Qed.
Theorem counterfactual_plus_difference_is_observed (y diff : Q) : (y - diff) + diff == y.
Proof. ring. Qed.
(* the running sum started in the pre-period restarts at zero at the first test date *)
Theorem cumulative_effect_restarts d test : ~ nQ d == 0 ->
  qsum (effects d d ++ effects d test) == qsum (effects d test).
Proof.
  intro Hn. rewrite qsum_app. unfold effects at 1. rewrite ols_resid_sum_zero by exact Hn. ring.
Qed.
