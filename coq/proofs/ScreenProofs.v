(* C19: the screened data are the input rows minus every row of the reported noisy geos and of
   the reported outlier dates, in the original order; nothing else is removed. *)
From Coq Require Import List ZArith QArith Bool Sorting.Permutation.
From MM Require Import model.Screen.
Import ListNotations.

Section Proofs.
  Variables (noisy : list row -> option (list Z)) (outliers : list row -> list Z).

  Definition reported_geos (f : fitted) : list Z := match f_noisy f with Some l => l | None => [] end.

  Lemma filter_all {A} (l : list A) : filter (fun _ => true) l = l.
  Proof. induction l as [|a l IH]; cbn; [reflexivity|f_equal; exact IH]. Qed.
  Lemma filter_filter {A} (p q : A -> bool) l : filter p (filter q l) = filter (fun x => q x && p x) l.
  Proof. induction l as [|a l IH]; cbn; [reflexivity|]. destruct (q a); cbn; [destruct (p a); cbn; rewrite IH|rewrite IH]; reflexivity. Qed.

  Theorem screened_data_def rows :
    let f := fit noisy outliers rows in
    f_data f = filter (fun r => negb (memz (r_geo r) (reported_geos f)) && negb (memz (r_date r) (f_outliers f))) rows.
  Proof.
    unfold fit, reported_geos. cbn [f_noisy f_outliers f_data]. cbv zeta.
    destruct (noisy rows) as [l|]; [destruct l as [|g l]|]; cbn [is_nil].
    - set (od := outliers rows). destruct od as [|d od]; cbn [is_nil].
      + rewrite <- (filter_all rows) at 1. apply filter_ext. intro r. reflexivity.
      + unfold drop_dates. apply filter_ext. intro r. reflexivity.
    - set (rows1 := drop_geos (g :: l) rows). set (od := outliers rows1). destruct od as [|d od]; cbn [is_nil].
      + unfold rows1, drop_geos. apply filter_ext. intro r. cbn [memz existsb]. rewrite andb_true_r. reflexivity.
      + unfold drop_dates, rows1, drop_geos. rewrite filter_filter. reflexivity.
    - set (od := outliers rows). destruct od as [|d od]; cbn [is_nil].
      + rewrite <- (filter_all rows) at 1. apply filter_ext. intro r. reflexivity.
      + unfold drop_dates. apply filter_ext. intro r. reflexivity.
  Qed.

  (* a row survives iff its geo is not reported noisy and its date is not a reported outlier *)
  Corollary screened_row_iff rows r :
    let f := fit noisy outliers rows in
    In r (f_data f) <-> In r rows /\ memz (r_geo r) (reported_geos f) = false /\ memz (r_date r) (f_outliers f) = false.
  Proof.
    cbv zeta. rewrite screened_data_def, filter_In, andb_true_iff, !negb_true_iff. reflexivity.
  Qed.

  (* the input list itself is only read *)
  Theorem screened_is_sublist_of_input rows : incl (f_data (fit noisy outliers rows)) rows.
  Proof. intros r H. apply screened_row_iff in H. apply H. Qed.

  (* row order: detectors that do not depend on the order of the rows give reports that do not *)
  Hypothesis noisy_perm : forall a b, Permutation a b -> noisy a = noisy b.
  Hypothesis outliers_perm : forall a b, Permutation a b -> outliers a = outliers b.
  Lemma filter_perm {A} (p : A -> bool) a b : Permutation a b -> Permutation (filter p a) (filter p b).
  Proof.
    induction 1 as [|x a' b' H IH|x y l|a' b' c' H1 IH1 H2 IH2]; cbn.
    - constructor.
    - destruct (p x); [constructor|]; assumption.
    - destruct (p x), (p y); try reflexivity. apply perm_swap.
    - etransitivity; eassumption.
  Qed.
  Theorem row_order_irrelevant a b : Permutation a b ->
    f_noisy (fit noisy outliers a) = f_noisy (fit noisy outliers b) /\
    f_outliers (fit noisy outliers a) = f_outliers (fit noisy outliers b) /\
    Permutation (f_data (fit noisy outliers a)) (f_data (fit noisy outliers b)).
  Proof.
    intro P. unfold fit. cbn [f_noisy f_outliers f_data]. cbv zeta. rewrite (noisy_perm a b P).
    set (ra := match noisy b with Some l => if is_nil l then a else drop_geos l a | None => a end).
    set (rb := match noisy b with Some l => if is_nil l then b else drop_geos l b | None => b end).
    assert (P1 : Permutation ra rb).
    { unfold ra, rb. destruct (noisy b) as [l|]; [|exact P]. destruct (is_nil l); [exact P|apply filter_perm; exact P]. }
    rewrite (outliers_perm ra rb P1). split; [reflexivity|split; [reflexivity|]].
    destruct (is_nil (outliers rb)); [exact P1|apply filter_perm; exact P1].
  Qed.
End Proofs.
