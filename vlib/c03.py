"""C03 -- exhaustive search returns the best-scoring feasible designs, best first."""
from . import searchfam, search_oracles as so
from . import common
from .c01 import RULE


def oracle(ck, case, out):
  r = out.get('exhaustive')
  if not r or r['outcome'] != 'ok' or not isinstance(out.get('geo_index'), list) or 'pairs' not in out:
    return
  fails, why = so.c03_optimal(case, out, r)
  if why:
    ck.cov.setdefault('oracle_skipped', {})
    ck.cov['oracle_skipped'][why] = ck.cov['oracle_skipped'].get(why, 0) + 1
  for m in so.c14_sorted(r, int(case['par_final'].get('n_designs', 1))):
    fails.append(m)
  if fails:
    ck.fail('not-optimal', fails[0], {'case': searchfam.slim(case), 'which': 'exhaustive', 'all': fails[:5]})


COMPONENTS = ['tsize_range', 'csizes', 'treat_groups', 'control_groups', 'exhaustive']


def budget_bites(ck, tier):
  """Budget ranges whose minimum / maximum cuts through the optimistic budgets of the treatment groups
  (so that the pruning and the two budget screens are actually exercised)."""
  from . import search
  out = []
  for k in range(common.sz(tier, 50, 800)):
    c = search.gen_case(ck.seed * 31 + 70000 + k, tier)
    c['want_budget'] = True
    c['want_share'] = k % 5 == 0
    c['budget_mode'] = 'lo-bites' if k % 2 == 0 else 'hi-bites'
    c['par']['n_designs'] = [1, 3, 10, 50][k % 4]
    out.append(c)
  return out


def run(tier):
  return searchfam.run_family('C03', tier, 'props/C03.v', COMPONENTS, oracle, 120, 1500,
                              RULE + '; oracle: brute force over all 3^n assignments of the admitted geos with the '
                              'omission clause (optimistic budget of the treatment group or of an admissible sub-group)',
                              want=('tables', 'components', 'exhaustive'), extra_cases=budget_bites,
                              assumptions=['feasible = over the geos admitted to the search (documented search space)',
                                           'score tuples free of NaN (total order); cases with score ties are skipped'], gen_targets=searchfam.GEN_TARGETS_EXH)


def replay(data):
  return searchfam.replay_family(data, oracle, want=('tables', 'components', 'exhaustive'))
