#!/bin/sh
# Runs every check of MANIFEST.json (quick tier by default) and prints one line per property.
cd "$(dirname "$0")/.." || exit 2
tier="${1:-quick}"
for p in C01 C02 C03 C04 C05 C06 C07 C08 C09 C10 C11 C12 C13 C14 C15 C16 C17 C18 C19 C20; do
  start=$(date +%s)
  ./check $p --tier "$tier" 2>/dev/null | grep -E "^VIOLATION|^C[0-9]+ (ok|FAIL)" | tr '\n' ' '
  echo "[$(( $(date +%s) - start ))s]"
done
