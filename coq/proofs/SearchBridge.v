(* Bridge lemmas: the Gallina regenerated from tbrmatchedmarkets.py on this run
   (gen/Gen_Search.v) equals the hand-written reference model (model/SearchDefs.v),
   for every value type, every assignment record, every parameter record. *)
From Coq Require Import List Arith ZArith Bool Lia PrimFloat.
From MM Require Import lib.ListExtra lib.ListSet lib.Combi lib.Values model.Heap model.Elig model.SearchParams
  model.SearchDefs gen.Gen_Search.
Import ListNotations.
Open Scope Z_scope.

Lemma fold_app_flat {A B} (f : A -> list B) l acc :
  fold_left (fun out x => out ++ f x) l acc = acc ++ flat_map f l.
Proof.
  revert acc; induction l as [|x l IH]; intro acc; cbn; [rewrite app_nil_r; reflexivity|].
  rewrite IH, app_assoc. reflexivity.
Qed.
Lemma fold_app_map {A B} (f : A -> B) l acc :
  fold_left (fun out x => out ++ [f x]) l acc = acc ++ map f l.
Proof.
  revert acc; induction l as [|x l IH]; intro acc; cbn; [rewrite app_nil_r; reflexivity|].
  rewrite IH, <- app_assoc. reflexivity.
Qed.
Lemma fold_app_filter {A} (p : A -> bool) l acc :
  fold_left (fun out x => if p x then out ++ [x] else out) l acc = acc ++ filter p l.
Proof.
  revert acc; induction l as [|x l IH]; intro acc; cbn; [rewrite app_nil_r; reflexivity|].
  rewrite IH. destruct (p x); [rewrite <- app_assoc|]; reflexivity.
Qed.
Lemma fold_add (g : Z -> Z) l acc : fold_left (fun a i => a + g i) l acc = acc + zsum l g.
Proof.
  unfold zsum. revert acc. induction l as [|x l IH]; intro acc; cbn [fold_left]; [lia|].
  rewrite (IH (acc + g x)), (IH (0 + g x)). lia.
Qed.
Lemma fold_add_ext (F : Z -> Z -> Z) (g : Z -> Z) l acc :
  (forall a i, F a i = a + g i) -> fold_left F l acc = acc + zsum l g.
Proof. intro H. rewrite (fold_ext F (fun a i => a + g i)) by exact H. apply fold_add. Qed.
Lemma fold_add_ext0 (F : Z -> Z -> Z) (g : Z -> Z) l :
  (forall a i, F a i = a + g i) -> fold_left F l 0 = zsum l g.
Proof. intro H. rewrite (fold_add_ext F g) by exact H. apply Z.add_0_l. Qed.
Lemma zsum_ext l (f g : Z -> Z) : (forall i, In i l -> f i = g i) -> zsum l f = zsum l g.
Proof.
  unfold zsum. generalize 0. induction l as [|x l IH]; intros acc H; cbn; [reflexivity|].
  rewrite (H x) by (left; reflexivity). apply IH. intros i Hi. apply H. right. exact Hi.
Qed.

Section Bridge.
  Context {V : Type} (O : vops V).
  Variables (A : assignments) (par : spar V) (shareS : set -> V).

  Lemma bridge_not_satisfied v lo hi : gen_constraint_not_satisfied O v lo hi = not_satisfied O v lo hi.
  Proof. reflexivity. Qed.

  Lemma bridge_tsize_range : gen_treatment_group_size_range A par = tsize_range A par.
  Proof.
    unfold gen_treatment_group_size_range, tsize_range, tsize_bounds, tsize_max, tsize_min, zlen.
    rewrite negb_involutive.
    destruct (is_nil (union (a_cx A) (a_c_fixed A))); destruct (p_treatment_geos_range par) as [[a b]|]; reflexivity.
  Qed.

  Lemma bridge_csizes nt : gen_control_group_size_generator O A par nt = csizes O A par nt.
  Proof.
    unfold gen_control_group_size_generator, csizes, csize_bounds, csize_min, csize_max, ratio_ok, zlen.
    destruct (p_control_geos_range par) as [[a b]|]; destruct (p_geo_ratio_tolerance par) as [tol|]; cbn [fst snd app];
      try (rewrite fold_app_filter; reflexivity);
      try (symmetry; induction (zrange _ _) as [|x l IH]; cbn; [reflexivity|f_equal; exact IH]).
  Qed.

  Lemma bridge_treat_raises n : gen_treatment_group_generator_raises n = treat_groups_raises n.
  Proof. unfold gen_treatment_group_generator_raises, treat_groups_raises. destruct (n <=? 0); reflexivity. Qed.

  Lemma bridge_treat_groups n : gen_treatment_group_generator A n = treat_groups A n.
  Proof.
    unfold gen_treatment_group_generator, treat_groups, with_fixed, zlen.
    destruct (n <=? 0); [reflexivity|]. cbv zeta.
    destruct ((n - Z.of_nat (length (a_t_fixed A)) =? 0) && negb (is_nil (a_t_fixed A))); [reflexivity|].
    destruct (n - Z.of_nat (length (a_t_fixed A)) >? 0); [|reflexivity].
    rewrite (fold_app_map (union (a_t_fixed A))). reflexivity.
  Qed.

  Lemma bridge_control_raises T : gen_control_group_generator_raises A T = control_groups_raises A T.
  Proof.
    unfold gen_control_group_generator_raises, control_groups_raises. rewrite negb_involutive.
    destruct (is_nil T); [reflexivity|]. cbn. destruct (is_nil (diff T (a_t A))); reflexivity.
  Qed.

  Lemma bridge_control_groups T : gen_control_group_generator O A par T = control_groups O A par T.
  Proof.
    unfold gen_control_group_generator, control_groups, control_groups_raises. rewrite negb_involutive.
    destruct (is_nil T); [reflexivity|]. cbn [orb]. cbv zeta.
    destruct (is_nil (diff T (a_t A))); [|reflexivity]. cbn [negb].
    rewrite bridge_csizes. fold (fixed_control A T). fold (varying_control A T). unfold zlen.
    rewrite (fold_ext _ (fun out n => out ++ with_fixed (fixed_control A T) (varying_control A T) n)).
    - rewrite fold_app_flat. reflexivity.
    - intros out n. unfold with_fixed, zlen.
      destruct ((n - Z.of_nat (length (fixed_control A T)) =? 0) && negb (is_nil (fixed_control A T))); [reflexivity|].
      destruct (n - Z.of_nat (length (fixed_control A T)) >? 0); [|rewrite app_nil_r; reflexivity].
      rewrite (fold_app_map (union (fixed_control A T))). reflexivity.
  Qed.

  (* the pre-computed dictionary of control sizes is just [csizes] on the treatment sizes *)
  Lemma dd_get_fold_set (f : Z -> list Z) l : forall d k,
    dd_get (fold_left (fun d n => dd_set d n (f n)) l d) k =
    if memZ k l then f k else dd_get d k.
  Proof.
    induction l as [|x l IH]; intros d k; cbn [fold_left memZ existsb]; [reflexivity|].
    rewrite IH. fold (memZ k l). destruct (memZ k l); [destruct (k =? x); reflexivity|].
    destruct (Z.eqb_spec k x) as [->|Hne]; cbn [orb].
    - clear IH. induction d as [|[k' q'] d IHd]; cbn; [rewrite Z.eqb_refl; reflexivity|].
      destruct (Z.eqb k' x) eqn:E; cbn; rewrite E; [reflexivity|exact IHd].
    - clear IH. induction d as [|[k' q'] d IHd]; cbn.
      + destruct (Z.eqb_spec x k); [congruence|reflexivity].
      + destruct (Z.eqb_spec k' x) as [->|Hk]; cbn.
        * destruct (Z.eqb_spec x k); [congruence|reflexivity].
        * destruct (Z.eqb k' k); [reflexivity|exact IHd].
  Qed.

  Lemma bridge_count : gen_count_max_designs O A par = count O A par.
  Proof.
    unfold gen_count_max_designs, count. cbv zeta. rewrite bridge_tsize_range. fold (@zlen nat).
    rewrite (fold_ext _ (fun d n => dd_set d n (csizes O A par n))) by (intros; rewrite bridge_csizes; reflexivity).
    unfold zlen.
    apply fold_add_ext0. intros a i_ct.
    apply fold_add_ext. intros a1 i_tx. apply fold_add_ext. intros a2 i_ctx.
    destruct (memZ _ (tsize_range A par)) eqn:Hm; [|lia].
    apply fold_add_ext. intros a3 i_cx. apply fold_add_ext. intros a4 i_cctx.
    rewrite dd_get_fold_set, Hm. destruct (memZ _ (csizes _ _ _ _)); lia.
  Qed.

  Lemma bridge_within T C : gen_design_within_constraints O A par shareS T C = within O A par shareS T C.
  Proof.
    unfold gen_design_within_constraints, within, volume_ok, georatio_ok, share_ok_rel, tsize_ok, csize_ok,
      tol_bounds, zlen. cbv zeta. rewrite !negb_involutive.
    destruct (is_nil T); [reflexivity|]. destruct (is_nil C); [reflexivity|]. cbn [orb negb andb fst snd].
    destruct (p_volume_ratio_tolerance par) as [vt|]; [rewrite bridge_not_satisfied; destruct (not_satisfied _ _ _ _); [reflexivity|]|];
    cbn [negb andb];
    (destruct (p_geo_ratio_tolerance par) as [gt|]; [rewrite bridge_not_satisfied; destruct (not_satisfied _ _ _ _); [reflexivity|]|]);
    cbn [negb andb];
    (destruct (p_treatment_share_range par) as [sr|]; [rewrite bridge_not_satisfied; destruct (not_satisfied _ _ _ _); [reflexivity|]|]);
    cbn [negb andb];
    (destruct (p_treatment_geos_range par) as [tr|]; [rewrite bridge_not_satisfied; destruct (not_satisfied _ _ _ _); [reflexivity|]|]);
    cbn [negb andb];
    (destruct (p_control_geos_range par) as [cr|]; [rewrite bridge_not_satisfied; destruct (not_satisfied _ _ _ _); reflexivity|]);
    reflexivity.
  Qed.

  (* exception safety of the translated code (C09): no integer division by zero *)
  Lemma within_no_zero_division T C : gen_design_within_constraints_safe O A par shareS T C = true.
  Proof.
    unfold gen_design_within_constraints_safe. cbv zeta. rewrite !negb_involutive.
    destruct T as [|t T]; [reflexivity|]. destruct C as [|c C]; [reflexivity|]. cbn [is_nil orb length].
    assert (E : (Z.of_nat (S (length T)) =? 0) = false) by (apply Z.eqb_neq; lia). rewrite E. cbn [negb andb].
    repeat match goal with
    | |- context [match ?o with Some _ => _ | None => _ end] => destruct o
    | |- context [if ?b then _ else _] => destruct b
    end; reflexivity.
  Qed.

  Lemma csizes_no_zero_division nt : nt <> 0 -> gen_control_group_size_generator_safe O A par nt = true.
  Proof.
    intro Hnt. unfold gen_control_group_size_generator_safe. cbv zeta.
    assert (E : (nt =? 0) = false) by (apply Z.eqb_neq; exact Hnt). rewrite E. cbn [negb andb].
    assert (G : forall (l : list Z) (t : Z -> bool), fold_left (fun ok n => if t n then ok && true else ok && true) l true = true).
    { induction l as [|x l IH]; intro t; cbn; [reflexivity|]. destruct (t x); apply IH. }
    destruct (p_control_geos_range par) as [[a b]|]; destruct (p_geo_ratio_tolerance par); try reflexivity.
    - cbn [fst snd]. erewrite fold_ext; [apply (G _ (fun _ => true))|]. intros ok n. cbn. destruct (_ && _); destruct ok; reflexivity.
    - erewrite fold_ext; [apply (G _ (fun _ => true))|]. intros ok n. cbn. destruct (_ && _); destruct ok; reflexivity.
  Qed.
End Bridge.
