(* C13 -- Greedy search never beats the exhaustive optimum (no budget / share constraints). *)
From Coq Require Import List Arith ZArith Bool Orders.
From MM Require Import lib.ListSet lib.Values model.Heap model.Elig model.SearchParams model.SearchDefs model.Search
  proofs.GroupSpecs proofs.ExhaustiveProofs proofs.GreedyProofs proofs.GreedyEnum.
Import ListNotations.
From MM Require Import gen.Gen_HeapDict gen.Gen_Exhaustive gen.Gen_Greedy proofs.OrderIso proofs.ExhaustiveBridge proofs.GreedyBridge.

(* Premises (named in the trusted base): on the three tests that the two searches phrase
   differently the value type behaves like exact arithmetic (1.0 = float(1); a <= b iff not b < a,
   i.e. no NaN; ints embed order-faithfully), and the aggregate share / the score depend on the
   set of geos, not on the order in which it is listed. *)
Theorem C13_greedy_designs_are_in_the_exhaustive_space :
  forall (V K : Type) (O : vops V) (ltk : K -> K -> bool) (es : list elig) (par : spar V)
         (shareS optB : set -> V) (bud : set -> set -> V) (gkey : set -> set -> K) (zero_key : K),
    vlit O 1 0 = vofZ O 1 ->
    (forall a b, vleb O a b = negb (vltb O b a)) ->
    (forall x y, vltb O (vofZ O x) (vofZ O y) = (x <? y)%Z) ->
    (forall a b, same_set a b -> shareS a = shareS b) ->
    p_budget_range par = None -> p_treatment_share_range par = None ->
    forall fuel ds T C,
      greedy O ltk (assignments_of es) par shareS bud gkey zero_key fuel = Some ds -> In (T, C) ds ->
      exists T' C', In (T', C') (pushed O es par shareS optB bud) /\ same_set T' T /\ same_set C' C.
Proof. exact @greedy_in_exhaustive_space. Qed.

Module C13 (K : UsualOrderedTypeFull').
  Module G := GreedyVsExhaustive K.
  Theorem C13_greedy_not_above_exhaustive_optimum :
    forall (V : Type) (O : vops V) (es : list elig) (par : spar V)
           (shareS optB : set -> V) (bud : set -> set -> V) (skey : set -> set -> K.t) (zero_key : K.t),
      vlit O 1 0 = vofZ O 1 ->
      (forall a b, vleb O a b = negb (vltb O b a)) ->
      (forall x y, vltb O (vofZ O x) (vofZ O y) = (x <? y)%Z) ->
      (forall a b, same_set a b -> shareS a = shareS b) ->
      (forall T T' C C', same_set T T' -> same_set C C' -> skey T C = skey T' C') ->
      p_budget_range par = None -> p_treatment_share_range par = None -> (1 <= p_n_designs par)%nat ->
      forall fuel ds T C,
        greedy O G.E.HP.kltb (assignments_of es) par shareS bud skey zero_key fuel = Some ds -> In (T, C) ds ->
        exists r, In r (exhaustive O G.E.HP.kltb (assignments_of es) par shareS optB bud skey) /\
                  K.le (skey T C) (ekey skey r).
  Proof. exact @G.greedy_not_above_exhaustive. Qed.
  Theorem C13_greedy_empty_when_exhaustive_empty :
    forall (V : Type) (O : vops V) (es : list elig) (par : spar V)
           (shareS optB : set -> V) (bud : set -> set -> V) (skey : set -> set -> K.t) (zero_key : K.t),
      vlit O 1 0 = vofZ O 1 ->
      (forall a b, vleb O a b = negb (vltb O b a)) ->
      (forall x y, vltb O (vofZ O x) (vofZ O y) = (x <? y)%Z) ->
      (forall a b, same_set a b -> shareS a = shareS b) ->
      (forall T T' C C', same_set T T' -> same_set C C' -> skey T C = skey T' C') ->
      p_budget_range par = None -> p_treatment_share_range par = None -> (1 <= p_n_designs par)%nat ->
      forall fuel ds,
        greedy O G.E.HP.kltb (assignments_of es) par shareS bud skey zero_key fuel = Some ds ->
        exhaustive O G.E.HP.kltb (assignments_of es) par shareS optB bud skey = [] -> ds = [].
  Proof. exact @G.greedy_empty_when_exhaustive_empty. Qed.

  (* stated on the two functions regenerated on this run from exhaustive_search and _greedy_search themselves:
     no design the translated greedy search returns scores above every design the translated exhaustive search returns *)
  Theorem C13_translated_greedy_not_above_translated_exhaustive :
    forall (V : Type) (O : vops V) (es : list elig) (par : spar V)
           (shareS optB : set -> V) (bud : set -> set -> V) (skey : set -> set -> K.t) (replace_inv : K.t -> V -> K.t) (zero_key : K.t),
      vlit O 1 0 = vofZ O 1 ->
      (forall a b, vleb O a b = negb (vltb O b a)) ->
      (forall x y, vltb O (vofZ O x) (vofZ O y) = (x <? y)%Z) ->
      (forall a b, same_set a b -> shareS a = shareS b) ->
      (forall T T' C C', same_set T T' -> same_set C C' -> skey T C = skey T' C') ->
      p_budget_range par = None -> p_treatment_share_range par = None -> (1 <= p_n_designs par)%nat ->
      forall fuel r d,
        gen_greedy_search O G.E.HP.kltb (assignments_of es) par shareS bud skey zero_key fuel = Some r -> In d (dd_get r 0%Z) ->
        exists e, In e (dd_get (gen_exhaustive_search O G.E.HP.kltb (assignments_of es) par shareS optB bud skey replace_inv) 0%Z) /\
                  K.le (des_key d) (des_key e).
  Proof.
    intros V O es par shareS optB bud skey replace_inv zero_key H1 H2 H3 H4 H5 Hb Hs Hn fuel r d Hr Hd.
    destruct (gen_greedy_in O G.E.HP.kltb _ par shareS bud skey zero_key fuel r d Hr Hd) as [ds [Hg Hin]].
    destruct (gen_greedy_designs_own_their_diag O G.E.HP.kltb _ par shareS bud skey zero_key fuel r d Hr Hd) as [_ Hk].
    rewrite (surjective_pairing (des_groups d)) in Hin.
    destruct (G.greedy_not_above_exhaustive O es par shareS optB bud skey zero_key H1 H2 H3 H4 H5 Hb Hs Hn fuel ds _ _ Hg Hin) as [r0 [Hr0 Hle]].
    assert (Hst : forall T C, stored_key O par bud skey replace_inv T C = skey T C) by (intros; unfold stored_key; rewrite Hb; reflexivity).
    exists (lift O par bud skey replace_inv r0). split.
    - rewrite gen_exhaustive_is_model. apply in_map.
      rewrite (exhaustive_order_iso O G.E.HP.kltb G.E.HP.kltb _ par shareS optB bud (stored_key O par bud skey replace_inv) skey); [exact Hr0|].
      intros. rewrite !Hst. reflexivity.
    - unfold des_key at 2, lift. cbn [fst]. rewrite Hst. unfold des_key. rewrite Hk. exact Hle.
  Qed.
End C13.

Print Assumptions C13_greedy_designs_are_in_the_exhaustive_space.
Module C13Z := C13 Z.
Print Assumptions C13Z.C13_greedy_not_above_exhaustive_optimum.
Print Assumptions C13Z.C13_greedy_empty_when_exhaustive_empty.
Print Assumptions C13Z.C13_translated_greedy_not_above_translated_exhaustive.
