"""C04 -- diagnostics and score attached to a design belong to its reported geos."""
from . import searchfam, search_oracles as so
from .c01 import RULE


def oracle(ck, case, out):
  for which in ('exhaustive', 'greedy'):
    r = out.get(which)
    if not r or r['outcome'] != 'ok' or not r['designs']:
      continue
    fails = so.c04_diag(case, out, r, which)
    ck.cov['designs_checked'] = ck.cov.get('designs_checked', 0) + len(r['designs'])
    if fails:
      ck.fail('diagnostics-mismatch', '%s search: %s' % (which, fails[0]), {'case': searchfam.slim(case), 'which': which})


def many_designs(ck, tier):
  """Cases that retain several designs (so that a shared or later-overwritten object would show)."""
  from . import search
  out = []
  for k in range(60 if tier == 'quick' else 1200):
    c = search.gen_case(ck.seed * 23 + 5000 + k, tier)
    c['par']['n_designs'] = 50
    c['par']['n_pretest_max'] = [90, c['n_dates'] - 4, 12, 15][k % 4]
    out.append(c)
  return out


def run(tier):
  return searchfam.run_family(
      'C04', tier, 'props/C04.v', ['exhaustive', 'greedy'], oracle, 90, 1800,
      RULE + '; plus cases with n_designs = 50 (many retained designs) and windows shorter than the data. For every returned '
      'design at every position: diag.x / diag.y are compared bit for bit with the sums of the raw input rows of the '
      'reported geo IDs over the most recent n_pretest_max dates; corr, required impact, the four test outcomes and the '
      'score tuple are compared with a fresh TBRMMDiagnostics / TBRMMScore built from those two series; the score object '
      'must hold the same series',
      extra_cases=many_designs,
      nontrivial=lambda c, o: bool(o.get('exhaustive', {}).get('designs')) or bool(o.get('greedy', {}).get('designs')),
      trusted_extra=['props/C04.v proves the object-level discipline (reuse + deep copies) on a hand-written store model; '
                     'its tie to the code is the executed oracle'],
      assumptions=['numeric kernels are deterministic: a fresh object on the same series reproduces the values exactly'])


def replay(data):
  return searchfam.replay_family(data, oracle)
