"""C19 -- post-analysis data screening removes exactly what it reports.

Proof: props/C19.v (orchestration of fit for every behaviour of the two statistical detectors).
Tie: generated experiment frames are given to TBRDiagnostics.fit and to the model (with the
detectors' reports of that run as the oracles); oracle: screened data = input minus reported,
analysis series = per-date group totals of the screened data, caller's frame unmodified, reports
independent of row order.
"""
import random

from . import common
from .common import Check, coq_list

TRUSTED = [
    'Coq 8.16.1 kernel and vm_compute; axioms: none',
    'modelled, not verified: the noisy-geo and outlier-date detectors (scipy / statsmodels) are oracles; pandas '
    'filtering / pivoting; hand-written model/Screen.v tied by executed correspondence',
    'harness: values are multiples of 1/8 so that all group totals are exact in binary64',
]


def gen_case(rng, idx):
  n_ctrl, n_trt = rng.randint(1, 5), rng.randint(1, 4)
  extra = rng.choice([0, 0, 1, 2])                    # geos of a group that is neither control nor treatment
  n_pre, n_test, n_cool = rng.randint(20, 45), rng.randint(5, 12), rng.choice([0, 0, 4])
  labels = rng.choice([(1, 2), (1, 2), (7, 3), (0, 9)])
  names = rng.choice([{}, {}, {'key_geo': 'market', 'key_response': 'sales', 'key_date': 'day', 'key_group': 'arm', 'key_period': 'phase'}])
  nd = n_pre + n_test + n_cool
  base = [100.0]
  for _ in range(nd - 1):
    base.append(base[-1] + rng.gauss(0, 1.5))
  geos = []
  for g in range(n_ctrl + n_trt + extra):
    grp = labels[0] if g < n_ctrl else labels[1] if g < n_ctrl + n_trt else 55
    kind = rng.choices(['ok', 'noisy', 'const', 'anti'], [0.7, 0.12, 0.08, 0.1])[0]
    scale = rng.choice([1, 2, 3, 5])
    series = []
    for t in range(nd):
      if kind == 'ok':
        v = scale * base[t] + rng.gauss(0, 0.5)
      elif kind == 'noisy':
        v = rng.gauss(100, 30)
      elif kind == 'const':
        v = 42.0
      else:
        v = scale * (200 - base[t]) + rng.gauss(0, 0.5)
      series.append(round(v * 8) / 8)
    geos.append({'id': g + 1, 'group': grp, 'series': series})
  spikes = rng.sample(range(n_pre), rng.choice([0, 0, 1, 2]))
  for t in spikes:
    for gd in geos:
      if gd['group'] == labels[1]:
        gd['series'][t] += rng.choice([300.0, -250.0, 800.0])
  return {'idx': idx, 'geos': geos, 'n_pre': n_pre, 'n_test': n_test, 'n_cool': n_cool, 'labels': labels, 'names': names,
          'seed': rng.randint(0, 10 ** 6), 'str_ids': rng.random() < 0.3}


def degenerate_cases():
  """Frames in which (almost) every geo is constant: no leave-one-out correlation is defined (finding F17)."""
  out = []
  for k, (n_const, n_var) in enumerate([(3, 1), (4, 0), (5, 1), (3, 2)]):
    nd, geos = 51, []
    for g in range(n_const + n_var):
      grp = 1 if g == 0 else 2
      series = [42.0] * nd if g < n_const else [200.0 + ((7 * t * (g + 1)) % 13) - 6.0 for t in range(nd)]
      geos.append({'id': g + 1, 'group': grp, 'series': series})
    out.append({'idx': 100000 + k, 'geos': geos, 'n_pre': 40, 'n_test': 11, 'n_cool': 0, 'labels': [1, 2], 'names': {},
                'seed': 100000 + k, 'str_ids': bool(k % 2)})
  return out


def both_detectors_cases(n):
  """Smooth panels (8-10 geos, little noise) with a planted noisy geo AND a moderate outlier date for the treatment
  group: frames on which both detectors report something in the same fit."""
  import math
  out = []
  for k in range(n):
    rng = random.Random(9000 + k)
    ng, nd, n_pre = rng.randint(8, 10), 42, 28
    base = [100 + 30 * math.sin(t / 3.0) + t for t in range(nd)]
    noisy_geo = rng.randint(1, ng) if k % 3 != 2 else None
    outlier_t = rng.randint(3, n_pre - 3)
    geos = []
    for g in range(1, ng + 1):
      grp = 1 if g % 2 else 2
      scale = 0.5 + 0.25 * g
      series = []
      for t in range(nd):
        v = rng.gauss(200, 60) if g == noisy_geo else scale * base[t] + rng.gauss(0, 1)
        if t == outlier_t and grp == 2:
          v += 150.0
        series.append(round(v * 8) / 8)
      geos.append({'id': g, 'group': grp, 'series': series})
    out.append({'idx': 200000 + k, 'geos': geos, 'n_pre': n_pre, 'n_test': nd - n_pre, 'n_cool': 0, 'labels': [1, 2],
                'names': {} if k % 2 else {'key_geo': 'market', 'key_response': 'sales', 'key_date': 'day', 'key_group': 'arm',
                                           'key_period': 'phase'},
                'seed': 200000 + k, 'str_ids': bool(k % 2)})
  return out


def frame(case, shuffle_seed=None):
  import pandas as pd
  nm = {'key_geo': 'geo', 'key_response': 'response', 'key_date': 'date', 'key_group': 'group', 'key_period': 'period'}
  nm.update(case['names'])
  recs = []
  t0 = pd.Timestamp('2021-03-01')
  gaps = {tuple(x) for x in case.get('gaps', [])}         # (group label, day): no row of that group on that day
  for gd in case['geos']:
    for t, v in enumerate(gd['series']):
      if (gd['group'], t) in gaps:
        continue
      per = 0 if t < case['n_pre'] else 1 if t < case['n_pre'] + case['n_test'] else 2
      gid = ('G%d' % gd['id']) if case['str_ids'] else gd['id']
      recs.append({nm['key_geo']: gid, nm['key_date']: t0 + pd.Timedelta(days=t), nm['key_period']: per,
                   nm['key_group']: gd['group'], nm['key_response']: v, 'cost': 1.0})
  df = pd.DataFrame(recs)
  if shuffle_seed is not None:
    df = df.sample(frac=1.0, random_state=shuffle_seed % (2 ** 31)).reset_index(drop=True)
  if case['seed'] % 4 == 1:
    # row labels repeat, as after pd.concat of per-period extracts without ignore_index
    df.index = [i % max(1, len(df) // 3) for i in range(len(df))]
  return df, nm


def run_fit(case, shuffle_seed=None):
  import pandas as pd
  from matched_markets.methodology import tbrdiagnostics
  df, nm = frame(case, shuffle_seed)
  before = df.copy(deep=True)
  kw = dict(case['names'])
  kw.update({'group_control': case['labels'][0], 'group_treatment': case['labels'][1]})
  d = tbrdiagnostics.TBRDiagnostics()
  if case.get('earlier_panel') is not None:
    # the diagnostics object analysed another panel first, and its results were read
    try:
      c0 = case['earlier_panel']
      df0, nm0 = frame(c0)
      kw0 = dict(c0['names'])
      kw0.update({'group_control': c0['labels'][0], 'group_treatment': c0['labels'][1]})
      d.fit(df0, target=nm0['key_response'], **kw0)
      d.get_test_results(); d.get_data(); d.get_analysis_data()
    except Exception:
      pass
  try:
    d.fit(df, target=nm['key_response'], **kw)
  except Exception as e:
    return {'outcome': 'raised %s: %s' % (type(e).__name__, str(e)[:150])}
  res = d.get_test_results()
  out = d.get_data()
  ad = d.get_analysis_data()
  t0 = pd.Timestamp('2021-03-01')
  day = lambda ts: int((pd.Timestamp(ts) - t0).days)
  gid = lambda g: int(str(g).lstrip('G'))
  rows_in = [(gid(r[nm['key_geo']]), day(r[nm['key_date']]), int(r[nm['key_period']]), int(r[nm['key_group']]), float(r[nm['key_response']]))
             for _, r in df.iterrows()]
  rows_out = [(gid(r[nm['key_geo']]), day(r[nm['key_date']]), int(r[nm['key_period']]), int(r[nm['key_group']]), float(r[nm['key_response']]))
              for _, r in out.iterrows()]
  cells = []
  for ts, r in ad.iterrows():
    x = r['x'] if 'x' in ad.columns else float('nan')
    y = r['y'] if 'y' in ad.columns else float('nan')
    cells.append((day(ts), int(r[nm['key_period']]), None if x != x else float(x), None if y != y else float(y)))
  noisy = res['noisy_geos']
  return {'outcome': 'ok', 'noisy': None if noisy is None else sorted(gid(g) for g in noisy),
          'outliers': sorted(day(t) for t in res['outlier_dates']), 'rows_in': rows_in, 'rows_out': rows_out, 'cells': cells,
          'input_unmodified': bool(before.equals(df)), 'corr_test': bool(res['corr_test']),
          'out_columns': list(out.columns), 'in_columns': list(df.columns)}


def oracle(case, r, r2):
  fails = []
  if r['outcome'].startswith('raised ValueError: Both control and treatment group ids must be present'):
    return []          # screening removed every geo of one group: rejected by design, outside the quantifier
  if r['outcome'] != 'ok':
    return ['fit %s' % r['outcome']]
  noisy = set(r['noisy'] or [])
  outl = set(r['outliers'])
  want = [x for x in r['rows_in'] if x[0] not in noisy and x[1] not in outl]
  if r['rows_out'] != want:
    extra = [x for x in r['rows_out'] if x not in want]
    missing = [x for x in want if x not in r['rows_out']]
    fails.append('screened data differ from input minus reported geos %s / dates %s: %d unexpected rows, %d missing rows%s'
                 % (sorted(noisy), sorted(outl), len(extra), len(missing),
                    '' if extra or missing else ' (row order changed)'))
  if r['out_columns'] != r['in_columns']:
    fails.append('screened data have columns %s, input %s' % (r['out_columns'], r['in_columns']))
  tot = {}
  for g, d, p, grp, v in want:
    if grp in case['labels']:
      tot.setdefault((d, p), [None, None])
      k = 0 if grp == case['labels'][0] else 1
      tot[(d, p)][k] = (tot[(d, p)][k] or 0.0) + v
  got = {(d, p): [x, y] for d, p, x, y in r['cells']}
  if got != tot:
    bad = [k for k in set(got) | set(tot) if got.get(k) != tot.get(k)][:3]
    fails.append('analysis series are not the per-date group totals of the screened data (e.g. at %s: %s vs %s)'
                 % (bad, [got.get(k) for k in bad], [tot.get(k) for k in bad]))
  if not r['input_unmodified']:
    fails.append('the caller\'s frame was modified')
  if r2 is not None:
    if r2['outcome'] != 'ok':
      fails.append('fit on the shuffled frame %s' % r2['outcome'])
    elif (r2['noisy'], r2['outliers'], r2['corr_test'], sorted(r2['cells'])) != (r['noisy'], r['outliers'], r['corr_test'], sorted(r['cells'])):
      fails.append('reports depend on row order: noisy %s vs %s, outliers %s vs %s' % (r['noisy'], r2['noisy'], r['outliers'], r2['outliers']))
    elif sorted(r2['rows_out']) != sorted(r['rows_out']):
      fails.append('screened rows depend on row order')
  return fails


def q(v):
  a, b = float(v).as_integer_ratio()
  return '(%d) %d' % (a, b)


def encode(case, r):
  rw = lambda x: 'R (%d) (%d) (%d) (%d) %s' % (x[0], x[1], x[2], x[3], q(x[4]))
  zl = lambda l: coq_list(['(%d)%%Z' % v for v in l])
  oq = lambda v: 'None' if v is None else '(Some (Qmake %s))' % q(v)
  return '(%s, %s, %s, (%d)%%Z, (%d)%%Z, %s, %s)' % (
      coq_list([rw(x) for x in r['rows_in']]), 'None' if r['noisy'] is None else '(Some %s)' % zl(r['noisy']), zl(r['outliers']),
      case['labels'][0], case['labels'][1], coq_list([rw(x) for x in r['rows_out']]),
      coq_list(['((%d)%%Z, (%d)%%Z, %s, %s)' % (d, p, oq(x), oq(y)) for d, p, x, y in r['cells']]))


def _one(case):
  try:
    r = run_fit(case)
    r2 = run_fit(case, shuffle_seed=case['seed']) if r['outcome'] == 'ok' else None
    return r, r2
  except Exception:
    import traceback
    return {'outcome': 'harness error: ' + traceback.format_exc()[-500:]}, None


PRELUDE = ('From Coq Require Import List ZArith QArith Bool.\nFrom MM Require Import model.Screen harness.RunCommon harness.RunC19.\n'
           'Import ListNotations.\n')


def run(tier):
  ck = Check('C19', tier)
  ck.prove('props/C19.v', gen_targets=[], extra=['harness/RunC19.vo'])
  rng = random.Random(ck.seed * 47 + 19)
  n = common.sz(tier, 100, 1500)
  cases = degenerate_cases() + both_detectors_cases(common.sz(tier, 8, 80)) + [gen_case(rng, i) for i in range(n)]
  # every third case: the diagnostics object analysed another panel (with noisy geos / outlier dates of its own) first
  r4 = random.Random(ck.seed * 53 + 7)
  donors = both_detectors_cases(4) + [gen_case(r4, 10 ** 6 + i) for i in range(6)]
  for i, c in enumerate(cases):
    if i % 3 == 1:
      c['earlier_panel'] = donors[i % len(donors)]
    if i % 5 == 3 and 'labels' in c and c.get('n_pre', 0) > 3:
      # on one pre-period day one of the two groups has no row at all
      c['gaps'] = [(c['labels'][r4.randrange(2)], r4.randrange(c['n_pre']))]
  res = common.pmap(_one, cases, chunksize=2)
  dist = {'with_noisy_geos': 0, 'with_outlier_dates': 0, 'fewer_than_4_geos': 0, 'custom_names': 0, 'rows_total': 0,
          'object_analysed_another_panel_first': sum(1 for c in cases if c.get('earlier_panel') is not None),
          'a_group_without_rows_on_one_day': sum(1 for c in cases if c.get('gaps'))}
  terms = []
  for c, (r, r2) in zip(cases, res):
    if r['outcome'].startswith('harness error'):
      ck.tie_broken('harness', 'harness error', r['outcome'])
      continue
    fails = oracle(c, r, r2)
    if r['outcome'] != 'ok':
      dist['rejected_one_group_left'] = dist.get('rejected_one_group_left', 0) + 1
    if r['outcome'] == 'ok':
      dist['with_noisy_geos'] += bool(r['noisy'])
      dist['with_outlier_dates'] += bool(r['outliers'])
      dist['fewer_than_4_geos'] += r['noisy'] is None
      dist['custom_names'] += bool(c['names'])
      dist['rows_total'] += len(r['rows_in'])
      terms.append(encode(c, r))
    ck.count((c['idx'], c['seed']), nontrivial=r['outcome'] == 'ok' and (bool(r['noisy']) or bool(r['outliers']) or len(c['geos']) >= 4))
    if fails:
      ck.fail('screening-mismatch', fails[0], {'case': c, 'all': fails[:4]})
  ck.sample({'geos': [(g['id'], g['group']) for g in cases[0]['geos']], 'periods': [cases[0]['n_pre'], cases[0]['n_test'], cases[0]['n_cool']],
             'labels': cases[0]['labels'], 'names': cases[0]['names'], 'reported': {'noisy': res[0][0].get('noisy'), 'outliers': res[0][0].get('outliers')}})
  jobs, shard = [], 8
  for k in range(0, len(terms), shard):
    jobs.append(('c19_%d' % (k // shard), PRELUDE + 'Definition cases : list case := %s.\nEval vm_compute in (mismatches agrees cases).\n'
                 % coq_list(terms[k:k + shard])))
  out = common.coq_eval_many(jobs)
  bad = []
  for name, (rc, o) in out.items():
    mm = common.parse_nat_list(o) if rc == 0 else None
    if mm is None:
      ck.tie_broken('correspondence', 'model evaluation failed (%s)' % name, o[-1500:])
    else:
      bad += [int(name.split('_')[1]) * shard + i for i in mm]
  if bad:
    ck.tie_broken('correspondence', 'TBRDiagnostics.fit vs model/Screen.v on %d frames' % len(bad), {'case': cases[sorted(bad)[0]]})
  ck.cov['rule'] = ('experiment frames with 1-5 control and 1-4 treatment geos (plus geos of a third group), 20-45 pre-period dates, '
                    'test and optional cooldown periods, planted noisy / constant / anti-correlated geos and spike dates, custom '
                    'column names and group labels, string or integer geo IDs, unique or repeating row labels, plus four frames in which all or all but one geo are constant and smooth 8-10-geo panels with a planted noisy geo and a moderate outlier date (both detectors report in one fit); each frame is fitted as generated and row-shuffled. '
                    'non-trivial: something was reported or at least four geos (noisy-geo detection active)')
  ck.cov['distribution'] = dist
  ck.cov['correspondence'] = {'frames_model_vs_impl': len(terms), 'disagreements': len(bad)}
  ck.assumptions = ['frames contain both groups (otherwise fit raises ValueError by design)',
                    'in this environment the outlier-date detector rarely fires (studentized residuals are bounded); '
                    'its reports are oracles of the model']
  return ck.finish('proof', TRUSTED)


def replay(data):
  inp = data.get('input') or next((b['detail'] for b in data.get('tie_broken', []) if isinstance(b.get('detail'), dict)), None)
  if not isinstance(inp, dict) or 'case' not in inp:
    print('replay: nothing executable recorded:', [b['name'] for b in data.get('tie_broken', [])])
    return 1
  c = inp['case']
  c['labels'] = tuple(c['labels'])
  r, r2 = _one(c)
  fails = oracle(c, r, r2)
  print('reported noisy geos:', r.get('noisy'), 'outlier dates:', r.get('outliers'))
  print('property failures:', fails or 'none')
  return 1 if fails else 0
