(* The comparison lemma: both searches depend on the score oracles only through the outcomes of
   the comparisons they perform.  Two score oracles that agree on every comparison (e.g. score
   tuples and their dense ranks; scores before and after a positive rescaling of the response)
   yield the same designs.  This is what justifies the rank encoding used by the harness and the
   scale-invariance half of C12. *)
From Coq Require Import List Arith ZArith Bool Lia.
From MM Require Import lib.ListExtra lib.ListSet lib.Values model.Heap model.Elig model.SearchParams model.SearchDefs model.Search.
Import ListNotations.
Open Scope Z_scope.

Lemma remove_first_ext {A} (p q : A -> bool) l : (forall y, p y = q y) -> remove_first p l = remove_first q l.
Proof. intro H. induction l as [|y l IH]; cbn; [reflexivity|]. rewrite H, IH. reflexivity. Qed.

Section HeapIso.
  Context {K K' A : Type} (ltk : K -> K -> bool) (ltk' : K' -> K' -> bool) (key : A -> K) (key' : A -> K').
  Hypothesis iso : forall a b, lt_item ltk key a b = lt_item ltk' key' a b.

  Lemma ins_iso x l : ins ltk key x l = ins ltk' key' x l.
  Proof. induction l as [|y l IH]; cbn; [reflexivity|]. rewrite iso, IH. reflexivity. Qed.
  Lemma sortd_iso l : sortd ltk key l = sortd ltk' key' l.
  Proof.
    induction l as [|y l IH]; [reflexivity|].
    change (ins ltk key y (sortd ltk key l) = ins ltk' key' y (sortd ltk' key' l)). rewrite IH. apply ins_iso.
  Qed.
  Lemma minl_iso l : forall a, minl ltk key a l = minl ltk' key' a l.
  Proof. induction l as [|b l IH]; intro a; cbn; [reflexivity|]. rewrite iso. apply IH. Qed.
  Lemma push_iso k q x : push ltk key k q x = push ltk' key' k q x.
  Proof.
    unfold push, heappushpop. destruct (length q <? k)%nat; [reflexivity|]. destruct q as [|a q']; [reflexivity|].
    cbv zeta. rewrite minl_iso, iso. destruct (lt_item ltk' key' _ x); [|reflexivity].
    f_equal. apply remove_first_ext. intro y. rewrite iso. reflexivity.
  Qed.
  Lemma fold_push_iso k xs : forall q, fold_left (push ltk key k) xs q = fold_left (push ltk' key' k) xs q.
  Proof. induction xs as [|x xs IH]; intro q; cbn; [reflexivity|]. rewrite push_iso. apply IH. Qed.
  Lemma nlargest_iso q : nlargest_all ltk key q = nlargest_all ltk' key' q.
  Proof. apply sortd_iso. Qed.
End HeapIso.

Section SearchIso.
  Context {V K K' : Type} (O : vops V) (ltk : K -> K -> bool) (ltk' : K' -> K' -> bool).
  Variables (A : assignments) (par : spar V).
  Variables (shareS optB : set -> V) (bud : set -> set -> V).

  (* exhaustive search *)
  Variables (skey : set -> set -> K) (skey' : set -> set -> K').
  Hypothesis siso : forall T C T' C', ltk (skey T C) (skey T' C') = ltk' (skey' T C) (skey' T' C').

  Lemma ekey_iso (a b : design) : lt_item ltk (ekey skey) a b = lt_item ltk' (ekey skey') a b.
  Proof. unfold lt_item, ekey. apply siso. Qed.

  Theorem exhaustive_order_iso :
    exhaustive O ltk A par shareS optB bud skey = exhaustive O ltk' A par shareS optB bud skey'.
  Proof.
    unfold exhaustive. rewrite (nlargest_iso ltk ltk' _ _ ekey_iso). f_equal. f_equal.
    unfold exh_state. cbv zeta.
    apply fold_ext. intros st n. apply fold_ext. intros st' T. unfold step_T.
    destruct (decide O par shareS optB _ (fst st') T); try reflexivity. f_equal.
    unfold eval_controls. apply fold_ext. intros h C. destruct (vol_out O par shareS T C); [reflexivity|].
    destruct (budget_out O par (bud T C)); [reflexivity|]. apply (push_iso ltk ltk' _ _ ekey_iso).
  Qed.

End SearchIso.

